package rules

import (
	"fmt"
	"go/token"
	"go/types"
	"sort"
	"strings"

	"golang.org/x/tools/go/ssa"

	"slipcheck/core"
	"slipcheck/lenflow"
)

const clPath = core.SlipPath + "/pkg/cl"

func init() {
	register(&Prop{
		ID:        "C14",
		Technique: "registry + static reachability of string constants (documented keywords are parsed), sibling agreement of the per-sequence-type workers on their bound comparisons, who-calls check for stable sorting primitives",
		Explanation: "The results of the sequence functions are values and are not decided. Decided statically: (C14.kw) for every built-in that documents &key parameters, each documented keyword occurs among the string constants compared in the functions statically reachable from its Call (a documented keyword that is never looked at cannot be honoured); " +
			"(C14.sibling) the workers that implement one sequence function for lists, strings, octets and vectors (methods of one type taking the shared keyword record) compare the :start/:end bounds with the same operators, so the function treats the bounds uniformly across sequence types and scan directions; " +
			"(C14.stable) stable-sort and merge reach no unstable sorting primitive. Narrow: necessary conditions only.",
		NotCovered: "the values returned for any keyword combination; :key/:test semantics; permutation and ordering of sort output",
		Trusted:    commonTrusted,
		Run:        runC14,
	})
}

func runC14(c *core.Ctx, r *core.Reporter) {
	c.BuildSSA()
	c14count(c, r)
	c14edge(c, r)
	c14nillist(c, r)
	c.BuildSSA()
	c14kw(c, r)
	c14sibling(c, r)
	c14stable(c, r)
	c14testorder(c, r)
	c14less(c, r)
	runRuneUnits(c, r, "C14.units", 100)
}

// reachableStrings: string constants in functions statically reachable from fn inside the module (depth-limited).
// Blocks that end in a raise (a call of a no-return function, or panic) are skipped: the keyword
// names listed in an "unknown keyword" message are not comparisons.
func reachableStrings(fn *ssa.Function, depth int, seen map[*ssa.Function]bool, out map[string]bool, noReturn func(*ssa.Function) bool) {
	if fn == nil || seen[fn] || depth > 4 || fn.Blocks == nil {
		return
	}
	seen[fn] = true
	for _, b := range fn.Blocks {
		raises := false
		for _, in := range b.Instrs {
			switch x := in.(type) {
			case *ssa.Panic:
				raises = true
			case *ssa.Call:
				if g := x.Call.StaticCallee(); g != nil && noReturn != nil && noReturn(g) {
					raises = true
				}
			}
		}
		if raises {
			continue
		}
		for _, in := range b.Instrs {
			var rands [12]*ssa.Value
			for _, op := range in.Operands(rands[:0]) {
				if s, ok := core.StringConst(*op); ok && len(s) > 0 && len(s) < 40 {
					out[strings.ToLower(s)] = true
				}
			}
			if call, ok := in.(*ssa.Call); ok {
				if g := call.Call.StaticCallee(); g != nil && g.Pkg != nil && core.InModule(g.Pkg.Pkg) {
					reachableStrings(g, depth+1, seen, out, noReturn)
				}
			}
		}
	}
	for _, af := range fn.AnonFuncs {
		reachableStrings(af, depth, seen, out, noReturn)
	}
}

func c14kw(c *core.Ctx, r *core.Reporter) {
	const rule = "C14.kw"
	r.Rule(rule, "for every sequence function of the property's family whose documented lambda list has &key parameters, each documented keyword :name occurs among the string constants of the functions statically reachable from its Call method, outside blocks that raise (it is compared with an argument somewhere; the list of keywords in an error message does not count)", 60)
	an := lenflow.New(c)
	for _, b := range c.Registry() {
		if b.Call == nil || !b.ArgsLit || b.Name == "" || !seqFamily(b.Name) {
			continue
		}
		var keys []string
		mode := 0
		for _, a := range b.DocArgs {
			la := strings.ToLower(a)
			switch la {
			case "&key":
				mode = 1
				continue
			case "&aux", "&allow-other-keys", "&rest", "&body", "&optional":
				if mode == 1 {
					mode = 2
				}
				continue
			}
			if mode == 1 {
				keys = append(keys, la)
			}
		}
		if len(keys) == 0 {
			continue
		}
		fn := c.SSAFunc(b.Call)
		if fn == nil {
			continue
		}
		strs := map[string]bool{}
		reachableStrings(fn, 0, map[*ssa.Function]bool{}, strs, an.NoReturn)
		for _, k := range keys {
			k = strings.TrimPrefix(k, ":")
			found := strs[":"+k] || strs[k]
			r.Decide(found, rule, b.Key()+"|:"+k, c.Pos(b.Pos), fmt.Sprintf("documented keyword :%s is compared in code reachable from the built-in: %v", k, found))
		}
	}
}

// seqFamily: the sequence functions the property quantifies over (and their -if / -if-not / n- variants).
func seqFamily(name string) bool {
	n := strings.ToLower(name)
	for _, suf := range []string{"-if-not", "-if"} {
		n = strings.TrimSuffix(n, suf)
	}
	switch n {
	case "find", "position", "count", "remove", "substitute", "nsubstitute", "delete", "remove-duplicates", "delete-duplicates",
		"member", "assoc", "rassoc", "search", "mismatch", "subseq", "replace", "fill", "reverse", "nreverse", "sort", "stable-sort",
		"merge", "union", "intersection", "set-difference", "subsetp", "every", "some", "notany", "notevery", "map", "mapcar",
		"reduce", "concatenate", "adjoin", "subst", "nsubst", "set-exclusive-or", "nunion", "nintersection", "nset-difference":
		return true
	}
	return false
}

// boundComparisons: comparisons in fn between a load of seqFunVars.start/end and something else.
func boundComparisons(fn *ssa.Function) []string {
	var out []string
	isBound := func(v ssa.Value) string {
		u, ok := v.(*ssa.UnOp)
		if !ok || u.Op != token.MUL {
			return ""
		}
		fa, ok := u.X.(*ssa.FieldAddr)
		if !ok {
			return ""
		}
		f := fieldName(fa)
		if (f == "start" || f == "end") && isFieldOf(fa, clPath, "seqFunVars", f) {
			return f
		}
		return ""
	}
	otherKind := func(v ssa.Value) string {
		switch x := v.(type) {
		case *ssa.Const:
			return "const:" + x.Value.String()
		case *ssa.Call:
			if bi, ok := x.Call.Value.(*ssa.Builtin); ok && bi.Name() == "len" {
				return "len"
			}
			return "call"
		case *ssa.Phi:
			return "index"
		case *ssa.BinOp:
			return "expr"
		case *ssa.UnOp:
			if f := isBound(x); f != "" {
				return "bound:" + f
			}
			return "load"
		}
		return "value"
	}
	flip := map[token.Token]token.Token{token.LSS: token.GTR, token.GTR: token.LSS, token.LEQ: token.GEQ, token.GEQ: token.LEQ, token.EQL: token.EQL, token.NEQ: token.NEQ}
	for _, b := range fn.Blocks {
		for _, in := range b.Instrs {
			bo, ok := in.(*ssa.BinOp)
			if !ok {
				continue
			}
			if _, isCmp := flip[bo.Op]; !isCmp {
				continue
			}
			if f := isBound(bo.X); f != "" {
				out = append(out, fmt.Sprintf("%s %s %s", f, bo.Op, otherKind(bo.Y)))
			} else if f := isBound(bo.Y); f != "" {
				out = append(out, fmt.Sprintf("%s %s %s", f, flip[bo.Op], otherKind(bo.X)))
			}
		}
	}
	sort.Strings(out)
	return out
}

func c14sibling(c *core.Ctx, r *core.Reporter) {
	const rule = "C14.sibling"
	r.Rule(rule, "the workers of one sequence function for the different sequence types (methods of one receiver type that take the shared *seqFunVars record) compare seqFunVars.start and seqFunVars.end with the same operators against the same kinds of operands, the same number of times", 8)
	groups := map[string][]*ssa.Function{}
	for _, fn := range c.ModuleFuncs() {
		if fn.Signature.Recv() == nil || fn.Parent() != nil || fn.Pkg == nil || fn.Pkg.Pkg.Path() != clPath {
			continue
		}
		takes := false
		for _, p := range fn.Params {
			if core.IsNamed(p.Type(), clPath, "seqFunVars") {
				takes = true
			}
		}
		if !takes || fn.Name() == "Call" {
			continue
		}
		rt := fn.Signature.Recv().Type()
		if p, ok := rt.(*types.Pointer); ok {
			rt = p.Elem()
		}
		if core.IsNamed(rt, clPath, "seqFunVars") {
			continue
		}
		groups[types.TypeString(rt, func(*types.Package) string { return "" })] = append(groups[types.TypeString(rt, func(*types.Package) string { return "" })], fn)
	}
	var names []string
	for n := range groups {
		names = append(names, n)
	}
	sort.Strings(names)
	for _, n := range names {
		fns := groups[n]
		if len(fns) < 2 {
			continue
		}
		sort.Slice(fns, func(i, j int) bool { return fns[i].Name() < fns[j].Name() })
		sums := map[string][]string{}
		for _, fn := range fns {
			s := strings.Join(boundComparisons(fn), "; ")
			sums[s] = append(sums[s], fn.Name())
		}
		// the majority summary is the reference; any deviating worker is reported
		best := ""
		for s, ws := range sums {
			if len(ws) > len(sums[best]) || best == "" || (len(ws) == len(sums[best]) && s < best) {
				best = s
			}
		}
		for _, fn := range fns {
			s := strings.Join(boundComparisons(fn), "; ")
			if s == "" && best == "" {
				continue
			}
			ok := s == best
			r.Decide(ok, rule, fmt.Sprintf("pkg/cl.(%s).%s", n, fn.Name()), c.Pos(fn.Pos()), fmt.Sprintf("bound comparisons {%s}; siblings %v use {%s}", s, sums[best], best))
		}
	}
}

func c14stable(c *core.Ctx, r *core.Reporter) {
	const rule = "C14.stable"
	r.Rule(rule, "no function statically reachable from the Call method of stable-sort or merge calls an unstable sorting primitive (sort.Slice, sort.Sort, slices.Sort, slices.SortFunc)", 1)
	for _, name := range []string{"stable-sort", "merge"} {
		b := c.ByName("pkg/cl", name)
		if b == nil || b.Call == nil {
			r.Undecided(rule, "pkg/cl:"+name, "-", "built-in not found in the registry")
			continue
		}
		var bad []string
		seen := map[*ssa.Function]bool{}
		var walk func(fn *ssa.Function, depth int)
		walk = func(fn *ssa.Function, depth int) {
			if fn == nil || seen[fn] || depth > 5 || fn.Blocks == nil {
				return
			}
			seen[fn] = true
			for _, bb := range fn.Blocks {
				for _, in := range bb.Instrs {
					call, ok := in.(*ssa.Call)
					if !ok {
						continue
					}
					g := call.Call.StaticCallee()
					if g == nil || g.Pkg == nil {
						continue
					}
					pp := g.Pkg.Pkg.Path()
					if (pp == "sort" && (g.Name() == "Slice" || g.Name() == "Sort")) || (pp == "slices" && (g.Name() == "Sort" || g.Name() == "SortFunc")) {
						bad = append(bad, fmt.Sprintf("%s.%s at %s", g.Pkg.Pkg.Name(), g.Name(), c.Pos(call.Pos())))
					}
					if core.InModule(g.Pkg.Pkg) {
						walk(g, depth+1)
					}
				}
			}
			for _, af := range fn.AnonFuncs {
				walk(af, depth)
			}
		}
		walk(c.SSAFunc(b.Call), 0)
		r.Decide(len(bad) == 0, rule, "pkg/cl:"+name, c.Pos(b.Pos), fmt.Sprintf("unstable primitives reached: %v", bad))
	}
}

// c14count: :count bounds the number of elements *changed*. Where an implementation keeps the remaining budget
// in a field and decrements it, the decrement belongs to the branch that changes an element. The rule: in the
// sequence family, a store `x.count = x.count - 1` is not executed on every path through its function (it is
// control-dependent on the match). Before 8fd5045 substitute and substitute-if decremented once per element
// looked at: (substitute 'x 1 '(2 1 1 1) :count 2) => (2 x 1 1).
func c14count(c *core.Ctx, r *core.Reporter) {
	const rule = "C14.count"
	r.Rule(rule, "in pkg/cl a decrement of a remaining-count field is conditional inside its function: the budget of :count is spent per element changed, not per element examined", 4)
	for _, fn := range c.ModuleFuncs() {
		if fn.Pkg == nil || core.RelPkg(fn.Pkg.Pkg.Path()) != "pkg/cl" {
			continue
		}
		n := 0
		for _, b := range fn.Blocks {
			for _, in := range b.Instrs {
				st, ok := in.(*ssa.Store)
				if !ok {
					continue
				}
				fa, ok := st.Addr.(*ssa.FieldAddr)
				if !ok || fieldName(fa) != "count" {
					continue
				}
				bo, ok := st.Val.(*ssa.BinOp)
				if !ok || bo.Op != token.SUB {
					continue
				}
				if cst, ok := bo.Y.(*ssa.Const); !ok || cst.Value == nil || cst.Int64() != 1 {
					continue
				}
				n++
				// can the function return without passing this block?
				avoid := map[*ssa.BasicBlock]int{b: 0}
				conditional := len(fn.Blocks) > 0 && b != fn.Blocks[0] && escapes(fn.Blocks[0], -1, avoid)
				r.Decide(conditional, rule, fmt.Sprintf("%s|count decrement #%d", core.SSAName(fn), n), c.Pos(st.Pos()), fmt.Sprintf("the decrement is not on every path through the function: %v", conditional))
			}
		}
	}
}
