package rules

import (
	"fmt"
	"go/token"

	"golang.org/x/tools/go/ssa"

	"slipcheck/core"
)

// c06vecshare: a vector is a struct around a Go slice of its elements, a list is such a slice itself. Building a
// vector around a slice that belongs to somebody else - the list given as :initial-contents, the list being
// coerced, the elements of the vector being copied - makes two Lisp objects share storage: (setf (aref copy 0) 9)
// changes the original, sorting a copy sorts the original, a change through the vector changes the list. Every
// call of slip.NewVector with an element slice is an instance: the slice is allocated in the calling activation
// (fresh by the ownership analysis). And no function returns, as a Lisp list, the slice a vector's
// AsList/Elements accessor handed it.
func c06vecshare(c *core.Ctx, r *core.Reporter) {
	const rule = "C06.vecshare"
	r.Rule(rule, "every element slice handed to slip.NewVector was allocated in the calling activation (it is not an argument list, a parameter, or the storage of another vector), and no function returns as a Lisp object the slice a vector's AsList/Elements accessor handed it: a copy, a coerced sequence and a made array have storage of their own", 12)
	for _, fn := range c.ModuleFuncs() {
		if fn.Blocks == nil || fn.Pkg == nil || takesTestingT(fn) {
			continue
		}
		rel := core.RelPkg(fn.Pkg.Pkg.Path())
		if rel != "slip" && rel != "pkg/cl" {
			continue
		}
		n, m := 0, 0
		for _, b := range fn.Blocks {
			for _, in := range b.Instrs {
				switch x := in.(type) {
				case *ssa.Call:
					g := x.Call.StaticCallee()
					if g == nil || !core.IsSSAFunc(g, core.SlipPath, "", "NewVector") || len(x.Call.Args) < 4 {
						continue
					}
					el := x.Call.Args[3]
					if k, ok := el.(*ssa.Const); ok && k.IsNil() {
						continue
					}
					n++
					key := fmt.Sprintf("%s|NewVector #%d", core.SSAName(fn), n)
					if why, ok := vecshareExceptions[key]; ok {
						r.Hold(rule, key, c.Pos(x.Pos()), "exception by reading: "+why)
						continue
					}
					fresh, why := freshSlice(el, 0, map[ssa.Value]bool{})
					r.Decide(fresh, rule, key, c.Pos(x.Pos()), fmt.Sprintf("the element slice is storage allocated here: %v (%s)", fresh, why))
				case *ssa.Return:
					var leaves []ssa.Value
					seenV := map[ssa.Value]bool{}
					var walk func(v ssa.Value, d int)
					walk = func(v ssa.Value, d int) {
						if seenV[v] || d > 6 {
							return
						}
						seenV[v] = true
						if phi, ok := v.(*ssa.Phi); ok {
							for _, e := range phi.Edges {
								walk(e, d+1)
							}
							return
						}
						leaves = append(leaves, v)
					}
					for _, rv := range x.Results {
						walk(rv, 0)
					}
					for _, rv := range leaves {
						mi, ok := rv.(*ssa.MakeInterface)
						if !ok {
							continue
						}
						call, ok := mi.X.(*ssa.Call)
						if !ok {
							continue
						}
						name := ""
						if call.Call.IsInvoke() {
							name = call.Call.Method.Name()
						} else if g := call.Call.StaticCallee(); g != nil {
							name = g.Name()
						}
						if name != "AsList" && name != "Elements" {
							continue
						}
						m++
						r.Violate(rule, fmt.Sprintf("%s|returns accessor slice #%d", core.SSAName(fn), m), c.Pos(x.Pos()), "the storage a vector's "+name+" accessor handed out is returned as a Lisp list: the list and the vector share it")
					}
				}
			}
		}
	}
}

// vecshareExceptions: one construct each.
var vecshareExceptions = map[string]string{}

// freshSlice: the slice value is storage made in this activation: make, a composite literal, an append onto such
// a base (append(List{}, x...) copies x), a phi of such values or nil, or the result of a module function all of
// whose returns are such. A type-asserted argument, a parameter, a field load or an accessor result is not.
func freshSlice(v ssa.Value, depth int, seen map[ssa.Value]bool) (bool, string) {
	if depth > 6 {
		return false, "too deep"
	}
	if seen[v] {
		return true, "cycle"
	}
	seen[v] = true
	switch x := v.(type) {
	case *ssa.Const:
		if x.IsNil() {
			return true, "nil"
		}
	case *ssa.MakeSlice:
		return true, "make"
	case *ssa.Slice:
		if al, ok := x.X.(*ssa.Alloc); ok {
			_ = al
			return true, "composite literal"
		}
		return freshSlice(x.X, depth+1, seen)
	case *ssa.ChangeType:
		return freshSlice(x.X, depth+1, seen)
	case *ssa.Phi:
		g := core.ComputeGuards(x.Parent(), nil)
		for i, e := range x.Edges {
			if edgeKnownNil(g, x, i) {
				continue // `if s != nil { s = copy of s }`: on the other edge s is nil
			}
			if ok, why := freshSlice(e, depth+1, seen); !ok {
				return false, why
			}
		}
		return true, "every incoming value"
	case *ssa.Call:
		if bi, ok := x.Call.Value.(*ssa.Builtin); ok && bi.Name() == "append" && len(x.Call.Args) >= 1 {
			return freshSlice(x.Call.Args[0], depth+1, seen)
		}
		if g := x.Call.StaticCallee(); g != nil && g.Pkg != nil && core.InModule(g.Pkg.Pkg) && g.Blocks != nil && g.Name() != "AsList" && g.Name() != "Elements" {
			n := 0
			for _, b := range g.Blocks {
				if ret, ok := b.Instrs[len(b.Instrs)-1].(*ssa.Return); ok && len(ret.Results) > 0 {
					n++
					if ok, why := freshSlice(ret.Results[0], depth+1, seen); !ok {
						return false, g.Name() + " can return " + why
					}
				}
			}
			if n > 0 {
				return true, "result of " + g.Name()
			}
		}
		return false, "the result of a call that hands out existing storage"
	case *ssa.Parameter:
		return false, "a parameter: the caller's slice"
	case *ssa.Extract, *ssa.TypeAssert:
		return false, "a type-asserted object: an argument's own storage"
	case *ssa.UnOp:
		return false, "loaded from a field or variable"
	}
	return false, fmt.Sprintf("%T", v)
}

// edgeKnownNil: on incoming edge i of the phi the facts say the carried value is nil.
func edgeKnownNil(g *core.Guards, phi *ssa.Phi, i int) bool {
	pb := phi.Block()
	if i >= len(pb.Preds) {
		return false
	}
	pred, e := pb.Preds[i], phi.Edges[i]
	facts := map[core.EdgeFact]bool{}
	for f := range g.Facts(pred) {
		facts[f] = true
	}
	if ifi, ok := pred.Instrs[len(pred.Instrs)-1].(*ssa.If); ok && len(pred.Succs) == 2 && pred.Succs[0] != pred.Succs[1] {
		facts[core.EdgeFact{If: ifi, Branch: pred.Succs[0] == pb}] = true
	}
	for f := range facts {
		bo, ok := f.If.Cond.(*ssa.BinOp)
		if !ok {
			continue
		}
		var other ssa.Value
		if bo.X == e {
			other = bo.Y
		} else if bo.Y == e {
			other = bo.X
		} else {
			continue
		}
		if k, ok := other.(*ssa.Const); !ok || !k.IsNil() {
			continue
		}
		if (bo.Op == token.EQL && f.Branch) || (bo.Op == token.NEQ && !f.Branch) {
			return true
		}
	}
	return false
}
