package rules

import (
	"fmt"
	"go/token"
	"sort"
	"strings"

	"golang.org/x/tools/go/ssa"

	"slipcheck/core"
)

// c10nilprec: "applicability and specificity come from the class precedence of each required argument" and
// "typep, class-of and method applicability all use that same precedence list". nil is an argument like any
// other; it has no Go type to ask for a Hierarchy, so the dispatcher supplies one. Every place in pkg/generic
// that chooses a hierarchy under `arg == nil` must supply the precedence of null - null, symbol, list,
// sequence, t - each of which typep accepts for nil. Before 64fdb1e it supplied (t): a method specialised on
// null, list or symbol was never applicable to nil.
func c10nilprec(c *core.Ctx, r *core.Reporter, rule string) {
	r.Rule(rule, "wherever the dispatcher of generic functions chooses a class precedence for an argument that is nil (a hierarchy value selected under `arg == nil`), that precedence is null, symbol, list, sequence, t: the classes typep says nil belongs to", 2)
	want := []string{"null", "symbol", "list", "sequence", "t"}
	n := 0
	for _, fn := range c.ModuleFuncs() {
		if fn.Pkg == nil || core.RelPkg(fn.Pkg.Pkg.Path()) != "pkg/generic" {
			continue
		}
		for _, b := range fn.Blocks {
			for _, in := range b.Instrs {
				phi, ok := in.(*ssa.Phi)
				if !ok || !isSymbolSlice(phi.Type()) {
					continue
				}
				for k, e := range phi.Edges {
					pred := b.Preds[k]
					// the edge is taken when an Object was found nil
					if !edgeUnderNilTest(pred, b) {
						continue
					}
					n++
					got := symbolSliceConstants(c, e)
					sort.Strings(got)
					w := append([]string{}, want...)
					sort.Strings(w)
					ok2 := strings.Join(got, " ") == strings.Join(w, " ")
					r.Decide(ok2, rule, fmt.Sprintf("%s|precedence of nil #%d", core.SSAName(fn), n), c.Pos(phi.Pos()), fmt.Sprintf("precedence supplied for a nil argument: %v; required: %v", got, want))
				}
			}
		}
	}
}

func isSymbolSlice(t interface{ String() string }) bool {
	return strings.HasSuffix(t.String(), "[]github.com/ohler55/slip.Symbol")
}

func edgeUnderNilTest(pred, succ *ssa.BasicBlock) bool {
	// pred itself, or its single predecessor chain, ends in `if x == nil` with the true edge leading here
	for i := 0; i < 2 && pred != nil; i++ {
		if ifi, ok := pred.Instrs[len(pred.Instrs)-1].(*ssa.If); ok {
			if bo, ok := ifi.Cond.(*ssa.BinOp); ok && (bo.Op == token.EQL || bo.Op == token.NEQ) {
				isNil := func(v ssa.Value) bool { k, ok := v.(*ssa.Const); return ok && k.IsNil() }
				if isNil(bo.X) || isNil(bo.Y) {
					tru := pred.Succs[0] == succ
					return (bo.Op == token.EQL) == tru
				}
			}
			return false
		}
		if len(pred.Preds) != 1 {
			return false
		}
		succ, pred = pred, pred.Preds[0]
	}
	return false
}

// symbolSliceConstants: the string constants of a []slip.Symbol value: a load of a package variable initialised
// with a literal, or a literal built in place.
func symbolSliceConstants(c *core.Ctx, v ssa.Value) []string {
	switch x := v.(type) {
	case *ssa.UnOp:
		if g, ok := x.X.(*ssa.Global); ok {
			e, info := globalInit(c, g.Object())
			if e != nil {
				var out []string
				for _, row := range stringRows(e, info) {
					out = append(out, row...)
				}
				return out
			}
		}
	case *ssa.Slice:
		// literal: new [n]Symbol; stores of constants
		if al, ok := x.X.(*ssa.Alloc); ok && al.Referrers() != nil {
			var out []string
			for _, rf := range *al.Referrers() {
				ia, ok := rf.(*ssa.IndexAddr)
				if !ok || ia.Referrers() == nil {
					continue
				}
				for _, r2 := range *ia.Referrers() {
					if st, ok := r2.(*ssa.Store); ok {
						if s, ok := core.StringConst(st.Val); ok {
							out = append(out, s)
						}
					}
				}
			}
			return out
		}
	}
	return nil
}
