// slipcheck decides structural clauses of the slip properties from the source
// of /repo without executing it.
package main

import (
	"encoding/json"
	"flag"
	"fmt"
	"os"
	"path/filepath"
	"runtime/debug"
	"strconv"
	"strings"
	"time"

	"slipcheck/core"
	"slipcheck/rules"
)

func main() {
	var (
		prop   = flag.String("prop", "", "property id (C01..C20), comma list, or 'all'")
		tier   = flag.String("tier", "quick", "quick | thorough")
		repo   = flag.String("repo", "/repo", "repository root")
		verif  = flag.String("verif", "/verif", "verif root (evidence/, replay/, known_findings.jsonl)")
		replay = flag.String("replay", "", "replay file: re-run its rule and report only that obligation")
		list   = flag.Bool("list", false, "list implemented properties")
		dump   = flag.String("dump", "", "debug: print all obligations of the given verdict (violated|undecided|holds|all)")
	)
	flag.Parse()
	if *list {
		fmt.Println(strings.Join(rules.IDs(), " "))
		return
	}
	seed := int64(0)
	if s := os.Getenv("VERIF_SEED"); s != "" {
		if v, err := strconv.ParseInt(s, 10, 64); err == nil {
			seed = v
		}
	}
	var replayKey, replayRule string
	if *replay != "" {
		b, err := os.ReadFile(filepath.Join(*verif, *replay))
		if err != nil {
			b, err = os.ReadFile(*replay)
		}
		if err != nil {
			fmt.Println("CHECK-ERROR: cannot read replay file:", err)
			os.Exit(2)
		}
		var m map[string]any
		if err := json.Unmarshal(b, &m); err != nil {
			fmt.Println("CHECK-ERROR: bad replay file:", err)
			os.Exit(2)
		}
		*prop, _ = m["property"].(string)
		replayRule, _ = m["rule"].(string)
		replayKey, _ = m["key"].(string)
	}
	var ids []string
	if *prop == "all" {
		ids = rules.IDs()
	} else {
		for _, id := range strings.Split(*prop, ",") {
			if id = strings.TrimSpace(id); id != "" {
				ids = append(ids, id)
			}
		}
	}
	if len(ids) == 0 {
		fmt.Println("CHECK-ERROR: no property given")
		os.Exit(2)
	}
	for _, id := range ids {
		if rules.Get(id) == nil {
			fmt.Printf("CHECK-ERROR: property %s has no machinery (see MANIFEST not_applicable)\n", id)
			os.Exit(2)
		}
	}
	start := time.Now()
	ctx, err := core.Load(*repo, *tier)
	if err != nil {
		fmt.Println("CHECK-ERROR:", err)
		os.Exit(2)
	}
	known, err := core.LoadKnown(filepath.Join(*verif, "known_findings.jsonl"))
	if err != nil {
		fmt.Println("CHECK-ERROR: known findings:", err)
		os.Exit(2)
	}
	fmt.Printf("loaded %d module packages (%d in closure) in %.1fs\n", len(ctx.Pkgs), len(ctx.All), time.Since(start).Seconds())
	exit := 0
	for _, id := range ids {
		p := rules.Get(id)
		t0 := time.Now()
		r := core.NewReporter(id)
		r.Count("module_packages", len(ctx.Pkgs))
		r.Count("packages_in_closure", len(ctx.All))
		func() {
			defer func() {
				if rec := recover(); rec != nil {
					fmt.Printf("CHECK-ERROR: analyser panic in %s: %v\n%s\n", id, rec, debug.Stack())
					os.Exit(2)
				}
			}()
			p.Run(ctx, r)
		}()
		if *dump != "" {
			for _, o := range r.Obls {
				if *dump == "all" || o.Verdict.String() == *dump {
					fmt.Printf("%s\t%s\t%s\t%s\t%s\n", o.Verdict, o.Rule, o.Key, o.Pos, o.Detail)
				}
			}
		}
		if *replay != "" {
			found := false
			for _, o := range r.Obls {
				if o.Rule == replayRule && o.Key == replayKey {
					found = true
					fmt.Printf("replay %s %s at %s: %s — %s\n", o.Rule, o.Key, o.Pos, o.Verdict, o.Detail)
					if o.Verdict != core.Holds {
						fmt.Printf("VIOLATION property=%s replay=%s\n", id, *replay)
						os.Exit(1)
					}
				}
			}
			if !found {
				fmt.Printf("replay: obligation %s|%s no longer exists in the current tree\n", replayRule, replayKey)
			}
			os.Exit(0)
		}
		out := r.Finish(*verif, *tier, seed, known, t0, p.Technique, p.Trusted, p.Explanation, p.NotCovered)
		for _, l := range out.Lines {
			fmt.Println(l)
		}
		fmt.Printf("%s %s: %d obligations, %d known findings, %d violations (%.1fs)\n", id, *tier, len(r.Obls), out.Known, out.Violations, time.Since(t0).Seconds())
		if out.Violations > 0 {
			exit = 1
		}
	}
	os.Exit(exit)
}
