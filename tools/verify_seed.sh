#!/bin/bash
# verify_seed.sh <seed-src-dir> <seed-id> <demo-dest-relative-path> <go test args for demo...>
# Confirms a seeded change in a scratch worktree of /repo HEAD (or of the commit named by SEED_BASE, for a
# seed whose file was rewritten by a later repair): demo passes without it,
# fails with it, and the pinned suite still passes with it. Stores it under /verif/seeded/<seed-id>/.
set -u
SRC="$1"; ID="$2"; DEST="$3"; shift 3
WT=/tmp/seedwt.$$
OUT=/verif/seeded/$ID
unset GOFLAGS GOTOOLCHAIN GOSUMDB; export GOPROXY=off
git -C /repo worktree add --detach "$WT" ${SEED_BASE:-HEAD} >/dev/null 2>&1 || exit 2
trap 'git -C /repo worktree remove --force "$WT" >/dev/null 2>&1' EXIT
cd "$WT"
cp "$SRC/demo_test.go" "$WT/$DEST"
go test -mod=mod -vet=off -count=1 "$@" > /tmp/seed_demo_clean.log 2>&1; CLEAN=$?
if ! git apply "$SRC/patch.diff" 2>/dev/null; then git apply -3 "$SRC/patch.diff" || { echo "PATCH DOES NOT APPLY"; exit 1; }; fi
git reset -q
go build -mod=mod ./ ./pkg/... ./cmd/... > /tmp/seed_build.log 2>&1; BUILD=$?
go test -mod=mod -vet=off -count=1 "$@" > /tmp/seed_demo_mut.log 2>&1; MUT=$?
mkdir -p "$OUT"
git diff -- . ":(exclude)$DEST" > "$OUT/patch.diff"
rm -f "$WT/$DEST"
BASE=$(/verif/tools/baseline.sh "$WT" | head -1)
cp "$SRC/demo_test.go" "$OUT/demo_test.go"
[ -f "$SRC/notes.md" ] && cp "$SRC/notes.md" "$OUT/notes.md"
echo "clean_demo_exit=$CLEAN build_exit=$BUILD mutant_demo_exit=$MUT baseline: $BASE"
echo "$CLEAN $BUILD $MUT $BASE" > "$OUT/.verify"
