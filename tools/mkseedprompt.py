#!/usr/bin/env python3
import json,sys
pid=sys.argv[1]
for l in open('/verif/properties.jsonl'):
    p=json.loads(l)
    if p['id']==pid:
        rec={k:p[k] for k in ('id','title','statement','quantifier','why_tests_cant','anchors')}
        open(f'/root/seedprompts/{pid}.txt','w').write(f"""You are a careful Go engineer acting as a "mutation author". The Go project ohler55/slip (a mostly-Common-Lisp interpreter written in Go) is checked out for you as a private scratch git worktree at /tmp/wt/{pid}. Work ONLY inside /tmp/wt/{pid} (and /tmp/wt/{pid}-out for your deliverables). Never touch /repo or /verif, and do not read anything under /verif.

Here is a semantic property that the project is supposed to satisfy (JSON record; line numbers in it may be slightly off):

{json.dumps(rec, indent=1)}

YOUR TASK: produce ONE realistic change to the project's non-test Go source that BREAKS this property while (a) the project still compiles, and (b) the project's existing test suite still passes unchanged. The change should look like a plausible regression a maintainer could introduce (a refactor gone slightly wrong, a dropped guard, a wrong loop bound, a reordered step, a stale cache, a swapped argument, a table typo), not sabotage that any use would expose. Prefer changes that need something SPECIFIC to manifest: a particular interleaving or history of operations, a multi-step sequence, an unusual input, a boundary value, a crash at a particular point, or two cooperating sites that each look fine alone. Keep it small (typically 1-15 changed lines). Do not edit, add or delete any *_test.go file or test data as part of the change. The code base already contains some defects related to this property; do not merely demonstrate an existing defect — your demonstration must PASS on the unmodified worktree and FAIL with your change.

Also produce a DEMONSTRATION: a new Go test file that FAILS with your change applied and PASSES on the original code, exercising the behaviour the property describes through the interpreter's public API (look at existing *_test.go files under test/ for the idiom, e.g. `(&sliptest.Function{{Source: `(+ 1 2)`, Expect: "3"}}).Test(t)` or `slip.ReadString(src, scope).Eval(scope, nil)`).

Environment (no network): before any go command run
  unset GOFLAGS GOTOOLCHAIN GOSUMDB; export GOPROXY=off
and always pass -mod=mod, e.g. `go build -mod=mod ./... ` (prints two expected errors for plugin test packages test/cl/testplugin and test/appplugin: "function main is undeclared" — ignore those two) and `go test -mod=mod -vet=off -count=1 ./... 2>&1 | tail -60` for the full suite (about one minute). These tests are known to fail on the UNMODIFIED tree in this sandbox and are to be ignored: test/cl TestRequireLoadPath, test/flavors TestFlavorGoMakeOnly, test/gi TestMakeAppPluginOk (and other plugin tests), test/repl TestHistoryAdd and TestStashAdd, and in test/ TestAppRunGenerate, TestAppRunGenerateCleanup, TestAppRunPrepare, TestStandardInput, TestStandardOutput; everything else that passes on the unmodified tree must still pass with your change (run the suite with `go test -json` on the unmodified tree first and compare the per-test results).
IMPORTANT: several worktrees of the same repository are in use at the same time. NEVER use `git stash` (the stash is shared between worktrees). To go back and forth between original and changed code use `git diff > /tmp/wt/{pid}-out/patch.diff`, `git apply -R /tmp/wt/{pid}-out/patch.diff`, `git apply /tmp/wt/{pid}-out/patch.diff`.

Deliverables, written to /tmp/wt/{pid}-out/ :
  patch.diff   — `git diff` of your source change only (without the demonstration test), applicable with `git apply` at the worktree's base commit
  demo_test.go — the demonstration, with a comment at the top saying in which directory/package it must be placed and the exact command to run it
  notes.md     — what the change does, why it breaks the property, what specific circumstances are needed for it to manifest, why the existing tests do not notice, and the commands you ran with their pass/fail outcome (suite with change: pass; demo without change: pass; demo with change: fail)
Leave the worktree with your change applied and the demo file in place. Reply with a 5-line summary when done.
""")
# Round 2 prompts were generated from the same template with the worktree id <PID>r2 and one extra
# sentence: "Do NOT place your change in <files touched by the round-1 seed> ...; pick a different file
# and a different clause of the property than the most obvious one."
# Round 3 prompts: same template, worktree id <PID>r3, files of the round-1 and round-2 seeds excluded.
# Round 4 prompts: as round 3 with the files of rounds 1-3 excluded.
