#!/bin/bash
# fixcommit.sh <message-file> [paths...]: run the pinned suite on /repo's working tree; commit (the given paths, or
# everything) with the message only when all 4498 pinned tests pass. Never commits on a failing baseline.
set -u
MSG="$1"; shift
cd /repo || exit 2
rm -rf /repo/root
OUT=$(/verif/tools/baseline.sh /repo | tail -3)
rm -rf /repo/root
echo "$OUT"
if ! echo "$OUT" | grep -q "stable_pass=4498 passed_now=4498 missing=0"; then
  echo "BASELINE FAILED: not committing"; exit 1
fi
if echo "$OUT" | grep -q "NOT PASSING"; then echo "BASELINE FAILED: not committing"; exit 1; fi
if [ $# -gt 0 ]; then git add "$@"; else git add -A; fi
git commit -q -F "$MSG" && git log --oneline | head -1
