#!/bin/bash
# runmutant.sh PROP NAME... : apply selftest/PROP/NAME.patch to a scratch copy of /repo, run PROP quick, grep expect.
PROP=$1; shift
export PATH=/opt/veriftools/go1.26.8/bin:$PATH GOFLAGS=-mod=mod GOPROXY=off GOTOOLCHAIN=local GOWORK=off
for name in "$@"; do
  SCR=/var/tmp/verif-mut.$$; rm -rf $SCR; mkdir -p $SCR/repo $SCR/verif
  rsync -a --exclude .git /repo/ $SCR/repo/; cp /verif/known_findings.jsonl $SCR/verif/
  if ! (cd $SCR/repo && git apply --whitespace=nowarn /verif/selftest/$PROP/$name.patch 2>/dev/null); then echo "$name: PATCH DOES NOT APPLY"; rm -rf $SCR; continue; fi
  out=$(/verif/bin/slipcheck -repo $SCR/repo -verif $SCR/verif -prop $PROP -tier quick 2>&1); rc=$?
  exp=$(cat /verif/selftest/$PROP/$name.expect)
  if [ $rc -eq 1 ] && echo "$out" | grep -qE -- "$exp"; then echo "$name: reported"; else echo "$name: NOT REPORTED (exit $rc)"; echo "$out" | grep -E "violated|CHECK-ERROR|error" | head -5; fi
  rm -rf $SCR
done
