#!/usr/bin/env python3
"""mkmutant.py PROP NAME FILE OLD NEW EXPECT [OLD2 NEW2 ...]  — create selftest/PROP/NAME.patch replacing the
single occurrence of OLD by NEW in /repo/FILE (unified diff), and NAME.expect (regex or CONTROL)."""
import sys, difflib, os
prop, name, file, old, new, expect = sys.argv[1:7]
more = sys.argv[7:]  # further OLD NEW pairs applied to the same file
src = open(os.path.join("/repo", file)).read()
dst = src
for o, n in [(old, new)] + list(zip(more[0::2], more[1::2])):
    if dst.count(o) != 1:
        sys.exit(f"OLD occurs {dst.count(o)} times in {file}: {o[:40]!r}")
    dst = dst.replace(o, n)
d = difflib.unified_diff(src.splitlines(True), dst.splitlines(True), "a/" + file, "b/" + file, n=3)
os.makedirs(f"/verif/selftest/{prop}", exist_ok=True)
open(f"/verif/selftest/{prop}/{name}.patch", "w").write("".join(d))
open(f"/verif/selftest/{prop}/{name}.expect", "w").write(expect + "\n")
print("ok", prop, name)
