#!/usr/bin/env python3
"""mkmutant.py PROP NAME FILE OLD NEW EXPECT  — create selftest/PROP/NAME.patch replacing the
single occurrence of OLD by NEW in /repo/FILE (unified diff), and NAME.expect (regex or CONTROL)."""
import sys, difflib, os
prop, name, file, old, new, expect = sys.argv[1:7]
src = open(os.path.join("/repo", file)).read()
if src.count(old) != 1:
    sys.exit(f"OLD occurs {src.count(old)} times in {file}")
dst = src.replace(old, new)
d = difflib.unified_diff(src.splitlines(True), dst.splitlines(True), "a/" + file, "b/" + file, n=3)
os.makedirs(f"/verif/selftest/{prop}", exist_ok=True)
open(f"/verif/selftest/{prop}/{name}.patch", "w").write("".join(d))
open(f"/verif/selftest/{prop}/{name}.expect", "w").write(expect + "\n")
print("ok", prop, name)
