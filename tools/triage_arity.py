#!/usr/bin/env python3
"""Triage helper (NOT part of any check): for each C04.arity disagreement reported by
slipcheck, build a call whose argument count lies in exactly one of the two ranges,
run it through a hand-built interpreter binary and record whether the arity was
accepted. Prints known_findings.jsonl lines for confirmed disagreements."""
import json, re, subprocess, sys

BIN = sys.argv[1] if len(sys.argv) > 1 else "/root/slipbin"
out = subprocess.run(["/verif/bin/slipcheck", "-prop", "C04", "-dump", "violated"], capture_output=True, text=True).stdout
pat = re.compile(r"documented \((.*?)\) allows (\d+)\.\.(\d*), code at (\S+) enforces (\d+)\.\.(\d*)")
for line in out.splitlines():
    if not line.startswith("violated\tC04.arity"):
        continue
    _, rule, key, pos, detail = line.split("\t", 4)
    m = pat.search(detail)
    if not m:
        continue
    dmn, dmx, emn, emx = int(m.group(2)), (int(m.group(3)) if m.group(3) else -1), int(m.group(5)), (int(m.group(6)) if m.group(6) else -1)
    name = key.split(":", 1)[1]
    pkg = key.split(":", 1)[0]
    def inr(n, mn, mx): return n >= mn and (mx < 0 or n <= mx)
    cand = None
    for n in range(0, 40):
        if inr(n, dmn, dmx) != inr(n, emn, emx):
            cand = n
            break
    if cand is None:
        continue
    form = "(" + name + "".join(" 1" for _ in range(cand)) + ")"
    res = subprocess.run([BIN, "-c", "-", "-e", form], capture_output=True, text=True, cwd="/tmp", timeout=20)
    txt = (res.stdout + res.stderr)
    rejected = ("Too few arguments" in txt) or ("Too many arguments" in txt)
    doc_allows = inr(cand, dmn, dmx)
    ok = (rejected == doc_allows)  # disagreement confirmed: doc allows but rejected, or doc forbids but not rejected for arity
    what = f"{name}: documented lambda list ({m.group(1)}) allows {cand} argument(s)={doc_allows}, but {form} is {'rejected with an arity error' if rejected else 'not rejected for arity'} (code enforces {emn}..{emx if emx>=0 else ''})"
    rec = {"property": "C04", "rule": rule, "key": key, "status": "open", "what": what, "repro": form}
    if ok:
        print(json.dumps(rec))
    else:
        print("# UNCONFIRMED " + json.dumps(rec) + " :: " + txt.strip().replace("\n", " ")[:200], file=sys.stderr)
