package main

import (
	"fmt"
	"os"
	"path/filepath"

	"github.com/ohler55/slip/pkg/repl"
)

func form(s string) repl.Form { return repl.Form{[]rune(s)} }

func dump(h *repl.History) {
	for i := 0; i < h.Size(); i++ {
		fmt.Printf("  %d: %q\n", i, string(h.Nth(h.Size()-1-i).Append(nil)))
	}
}

func main() {
	dir, _ := os.MkdirTemp("", "c20")
	defer os.RemoveAll(dir)
	fn := filepath.Join(dir, "history")
	// 1. stale tmp file from an earlier death
	os.WriteFile(fn+".tmp", []byte("(stale-1)\n(stale-2)\n"), 0644)
	var h repl.History
	h.SetLimit(10)
	h.Load(fn)
	for i := 0; i < 11; i++ {
		h.Add(form(fmt.Sprintf("(f %d)", i)))
	}
	var h2 repl.History
	h2.SetLimit(10)
	h2.Load(fn)
	fmt.Println("after compaction with a stale history.tmp, reloaded:")
	dump(&h2)
	// 2. tab and blanks
	fn2 := filepath.Join(dir, "history2")
	var h3 repl.History
	h3.SetLimit(10)
	h3.Load(fn2)
	h3.Add(form("(list \"a\tb\")"))
	h3.Add(form("  (indented)  "))
	var h4 repl.History
	h4.SetLimit(10)
	h4.Load(fn2)
	fmt.Println("form with TAB / blanks reloaded:")
	dump(&h4)
}
