package main

import (
	"fmt"
	"sync"

	"github.com/ohler55/slip"
	_ "github.com/ohler55/slip/pkg/cl"
	_ "github.com/ohler55/slip/pkg/clos"
	_ "github.com/ohler55/slip/pkg/flavors"
	_ "github.com/ohler55/slip/pkg/generic"
	_ "github.com/ohler55/slip/pkg/gi"
)

func eval(src string) (r any) {
	defer func() {
		if x := recover(); x != nil {
			r = fmt.Sprintf("PANIC %v", x)
		}
	}()
	s := slip.NewScope()
	return slip.ReadString(src, s).Eval(s, nil)
}

func main() {
	eval(`(defpackage :pa (:use :cl) (:export ex))`)
	eval(`(defpackage :pb (:use :cl :pa))`)
	writers := []string{
		`(defun fw%d (x) (+ x %d))`,
		`(defvar vw%d %d)`,
		`(defclass cw%d () ((a :initform %d)))`,
		`(setq vshared %d%d)`,
		`(defstruct sw%d a%d)`,
		`(progn (use-package :pa :pb) (unuse-package :pa :pb) %d %d)`,
		`(progn (export 'fw%d) %d)`,
		`(progn (makunbound 'vw%d) %d)`,
		`(progn (fmakunbound 'fw%d) %d)`,
		`(progn (defpackage :tmp%d (:use :cl :pa)) %d)`,
		`(progn (ignore-errors (delete-package :tmp%d)) %d)`,
		`(list :kw%d :kx%d)`,
		`(progn (intern "SYM%d") %d)`,
	}
	readers := []string{
		`(fboundp 'fw1)`, `(boundp 'vw1)`, `(find-class 'cw1 nil)`, `(describe 'car nil)`, `(apropos-list "fw")`,
		`(package-use-list :pb)`, `(package-used-by-list :pa)`, `(funcall 'fw2 1)`, `(eval '(fw3 1))`, `(symbol-value 'vw2)`,
		`(documentation 'car 'function)`, `(find-symbol "FW1")`, `(list-all-packages)`, `(do-symbols (s) s)`, `(class-of 1)`,
		`(make-instance 'cw1)`, `(let ((x 1)) (setq x 2) x)`, `(read-from-string "(fw4 1)")`, `(compile nil '(lambda () (fw5 1)))`,
		`(snapshot nil)`, `(documentation 'fw1 'function)`, `(describe 'fw1 nil)`, `(describe 'vw1 nil)`, `(package-used-by-list :cl)`, `(package-use-list :tmp1)`,
		`(ignore-errors (delete-package :tmp2))`, `(list :kr1 :kr2 :kr3)`, `(boundp 'vw3)`, `(symbol-value '*print-base*)`, `(use-package :pa :pb)`, `(pretty-print (find-package :pb) nil)`, `(defun rr (x) (notyet x))`,
	}
	var wg sync.WaitGroup
	for w := 0; w < 3; w++ {
		wg.Add(1)
		go func(w int) {
			defer wg.Done()
			for i := 0; i < 150; i++ {
				eval(fmt.Sprintf(writers[(i+w)%len(writers)], i%7, i))
			}
		}(w)
	}
	for r := 0; r < 3; r++ {
		wg.Add(1)
		go func(r int) {
			defer wg.Done()
			for i := 0; i < 150; i++ {
				eval(readers[(i+r)%len(readers)])
			}
		}(r)
	}
	wg.Wait()
	fmt.Println("done")
}
