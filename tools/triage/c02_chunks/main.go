package main

import (
	"fmt"
	"io"
	"os"

	"github.com/ohler55/slip"
	_ "github.com/ohler55/slip/pkg/cl"
)

type chunked struct {
	data []byte
	cuts []int
	i    int
	pos  int
}

func (c *chunked) Read(p []byte) (int, error) {
	if c.pos >= len(c.data) {
		return 0, io.EOF
	}
	end := len(c.data)
	if c.i < len(c.cuts) {
		end = c.cuts[c.i]
		c.i++
	}
	n := copy(p, c.data[c.pos:end])
	c.pos += n
	return n, nil
}

func try(src string, cuts ...int) {
	whole := fmt.Sprint(func() (r any) {
		defer func() {
			if x := recover(); x != nil {
				r = fmt.Sprintf("PANIC %v", x)
			}
		}()
		return slip.ReadString(src, slip.NewScope()).String()
	}())
	got := fmt.Sprint(func() (r any) {
		defer func() {
			if x := recover(); x != nil {
				r = fmt.Sprintf("PANIC %v", x)
			}
		}()
		code, _ := slip.ReadStream(&chunked{data: []byte(src), cuts: cuts}, slip.NewScope())
		return code.String()
	}())
	flag := "same"
	if whole != got {
		flag = "DIFFERENT"
	}
	fmt.Printf("%-9s src=%q cuts=%v string=%s stream=%s\n", flag, src, cuts, whole, got)
}

func main() {
	_ = os.Args
	try(`"abcdef" 1`, 3)           // stringDone
	try(`|abcdef| 1`, 3)           // pipeDone
	try(`"abc\ndef" 1`, 2)         // escByte
	try(`"ab\ndef" 1`, 5)         // escByte after
	try(`#\Space 1`, 4)            // pushChar name
	try(`#\a 1`, 2)                // pushChar single
	try(`(t 1)`, 2)                // pushToken t special
	try(`(xt 1)`, 2)               // pushToken 't' tail of straddling token
	try(`(abc def)`, 5)            // save outside token? cut after "abc d"
	try(`(abc  def)`, 5)           // cut in whitespace after token
	try(`(abc) def`, 6)            // cut after close paren + space
	try(`"ab" cd`, 5)              // cut in whitespace after string, before token
	try(`12 34`, 3)
	try(`(a b) c`, 6)
	try(`#xFF 1`, 3)
	try(`#*101 1`, 3)
	try(`#| c |# 1`, 3)
}
