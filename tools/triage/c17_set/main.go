// Triage for C17.recheck slip.(Package).Set: two routines that set the same new variable both observe the miss
// outside the lock and both store a fresh entry; the entry returned to one of them is not the one in the table.
package main

import (
	"fmt"
	"sync"

	"github.com/ohler55/slip"
	_ "github.com/ohler55/slip/pkg"
)

func main() {
	p := slip.UserPkg
	orphans := 0
	for i := 0; i < 20000; i++ {
		name := fmt.Sprintf("c17-var-%d", i)
		var wg sync.WaitGroup
		var a, b *slip.VarVal
		start := make(chan struct{})
		wg.Add(2)
		go func() { defer wg.Done(); <-start; a = p.Set(name, slip.Fixnum(1)) }()
		go func() { defer wg.Done(); <-start; b = p.Set(name, slip.Fixnum(2)) }()
		close(start)
		wg.Wait()
		t := p.GetVarVal(name)
		if a != t && b != t || a != b {
			orphans++
		}
	}
	fmt.Println("names whose two setters ended with different entries:", orphans)
}
