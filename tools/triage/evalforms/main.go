// evalforms: discovery aid (NOT a check). Reads a file of Lisp forms, evaluates each top-level form
// in one session and prints the value or the panic, continuing after errors. Go runtime faults are
// marked FAULT so that they can be told apart from Lisp conditions.
package main

import (
	"fmt"
	"os"
	"runtime"
	"strings"
	"time"

	"github.com/ohler55/slip"
	_ "github.com/ohler55/slip/pkg/bag"
	_ "github.com/ohler55/slip/pkg/cl"
	_ "github.com/ohler55/slip/pkg/clos"
	_ "github.com/ohler55/slip/pkg/flavors"
	_ "github.com/ohler55/slip/pkg/gi"
)

func main() {
	data, err := os.ReadFile(os.Args[1])
	if err != nil {
		panic(err)
	}
	scope := slip.NewScope()
	for _, line := range splitForms(string(data)) {
		done := make(chan string, 1)
		go func() {
			done <- evalOne(scope, line)
		}()
		select {
		case out := <-done:
			fmt.Printf("%s\n   => %s\n", line, out)
		case <-time.After(5 * time.Second):
			fmt.Printf("%s\n   => HANG\n", line)
		}
	}
}

func evalOne(scope *slip.Scope, src string) (out string) {
	defer func() {
		if r := recover(); r != nil {
			switch tr := r.(type) {
			case runtime.Error:
				out = "FAULT " + tr.Error()
			case *slip.Panic:
				out = "ERR " + strings.ReplaceAll(tr.Error(), "\n", " ")
			case slip.Object:
				out = "COND " + strings.ReplaceAll(slip.ObjectString(tr), "\n", " ")
			case error:
				out = "ERR " + strings.ReplaceAll(tr.Error(), "\n", " ")
			default:
				out = fmt.Sprintf("PANIC %T %v", r, r)
			}
		}
	}()
	code := slip.ReadString(src, scope)
	var result slip.Object
	for _, obj := range code {
		if obj == nil {
			result = nil
			continue
		}
		result = scope.Eval(obj, 0)
	}
	return slip.ObjectString(result)
}

// splitForms: one form per paragraph-free top-level form; forms are separated by lines starting with '('
// at column 0 (a form may span lines when continuation lines are indented).
func splitForms(s string) []string {
	var forms []string
	var cur []string
	for _, l := range strings.Split(s, "\n") {
		if strings.HasPrefix(l, ";") {
			continue
		}
		if len(l) > 0 && l[0] != ' ' && l[0] != '\t' && len(cur) > 0 {
			forms = append(forms, strings.Join(cur, "\n"))
			cur = nil
		}
		if strings.TrimSpace(l) != "" {
			cur = append(cur, l)
		}
	}
	if len(cur) > 0 {
		forms = append(forms, strings.Join(cur, "\n"))
	}
	return forms
}
