package main

import (
	"fmt"
	"os"
	"sync"

	"github.com/ohler55/slip"
	_ "github.com/ohler55/slip/pkg/cl"
	_ "github.com/ohler55/slip/pkg/clos"
	_ "github.com/ohler55/slip/pkg/flavors"
	_ "github.com/ohler55/slip/pkg/generic"
	_ "github.com/ohler55/slip/pkg/gi"
)

func eval(src string) (r any) {
	defer func() {
		if x := recover(); x != nil {
			r = fmt.Sprintf("PANIC %v", x)
		}
	}()
	s := slip.NewScope()
	return slip.ReadString(src, s).Eval(s, nil)
}

func main() {
	which := os.Args[1]
	eval(`(defgeneric g (x))`)
	eval(`(defmethod g ((x fixnum)) 1)`)
	var wg sync.WaitGroup
	wg.Add(2)
	go func() {
		defer wg.Done()
		for i := 0; i < 3000; i++ {
			eval(fmt.Sprintf(`(defmethod g ((x %s)) %d)`, []string{"fixnum", "string", "symbol", "list", "float"}[i%5], i))
		}
	}()
	go func() {
		defer wg.Done()
		for i := 0; i < 3000; i++ {
			switch which {
			case "find":
				eval(`(find-method 'g '() '(fixnum))`)
			case "cam":
				eval(`(compute-applicable-methods 'g '(1))`)
			case "loadform":
				eval(`(pretty-print g nil)`)
			}
		}
	}()
	wg.Wait()
	fmt.Println("done", which)
}
