#!/bin/bash
# Triage helper (not a check): run the repository's pinned suite the way BASELINE.json does
# and report which of the 4498 stable-pass tests no longer pass.
cd "${1:-/repo}" || exit 2
unset GOFLAGS GOTOOLCHAIN GOSUMDB
export GOPROXY=off
BJ=$(mktemp /tmp/baseline.XXXXXX.json); export BJ
trap 'rm -f "$BJ" "$BJ.err"' EXIT
go test -mod=mod -json -vet=off -count=1 -timeout 15m ./... > "$BJ" 2>"$BJ.err"
# the suite leaves an untracked root/.config/slip behind in the tree it ran in
git ls-files --error-unmatch root >/dev/null 2>&1 || rm -rf ./root
python3 - <<'PY'
import json
base=set(json.load(open('/root/.vp/BASELINE.json'))['stable_pass'])
st={}
import os
for l in open(os.environ['BJ']):
    try: e=json.loads(l)
    except Exception: continue
    if e.get('Test') and e.get('Action') in('pass','fail','skip'):
        st[e['Package']+'::'+e['Test']]=e['Action']
passed={k for k,v in st.items() if v=='pass'}
missing=sorted(base-passed)
print("stable_pass=%d passed_now=%d missing=%d"%(len(base),len(passed),len(missing)))
for m in missing[:40]: print("  NOT PASSING:",m,st.get(m))
PY
