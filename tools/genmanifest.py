#!/usr/bin/env python3
"""Regenerate MANIFEST.json from tools/claims.json (claimed properties) — every property not
listed there goes to not_applicable with the reason given in tools/not_applicable.json."""
import json, os
V = os.path.dirname(os.path.dirname(os.path.abspath(__file__)))
claims = json.load(open(os.path.join(V, "tools", "claims.json")))
na = json.load(open(os.path.join(V, "tools", "not_applicable.json")))
props = [json.loads(l)["id"] for l in open(os.path.join(V, "properties.jsonl"))]
checks = []
for pid in props:
    c = claims.get(pid)
    if not c:
        continue
    checks.append({
        "property_id": pid,
        "quick_cmd": f"./bin/check {pid} quick",
        "thorough_cmd": f"./bin/check {pid} thorough",
        "evidence_file": f"evidence/{pid}.json",
        "replay_cmd_template": "./bin/check --replay {path}",
        "engine": "slipcheck",
        "level_claimed": {
            "category": "other",
            "text": c["text"],
            "design_ref": c.get("design_ref", "DESIGN.md section 3 " + pid),
        },
        "level_note": c["note"],
        "technique": c["technique"],
    })
m = {
    "version": 1,
    "setup_cmd": "./bin/check --build",
    "hooks": {
        "guard": "verif",
        "enable": "none needed: static analysis reads the unmodified working tree of /repo; no instrumentation is compiled in",
        "baseline_off_cmd": "cd /repo && go test -mod=mod -json -vet=off -count=1 -timeout 25m ./...",
        "source_commits": [],
        "add_only": True,
    },
    "engines": [{
        "name": "slipcheck",
        "path": "checker/cmd/slipcheck",
        "serves_properties": [c["property_id"] for c in checks],
        "kind_free_text": "repository-specific static analyser (go/packages + go/types + go/ssa + call graph + constant tables), one rule file per property; thorough tier adds VTA call graph, test-package and GOARCH=386 loads and rule self-tests on mutated scratch copies",
    }],
    "checks": checks,
    "notes": "Technique family: static analysis only; no check executes slip code. Genuine defects found are in known_findings.jsonl (open = reported as KNOWN-FINDING, fixed = repaired by a 'fix:' commit in /repo). See DESIGN.md.",
    "not_applicable": [{"property_id": p, "reason": na.get(p, "designed (DESIGN.md section 3) but its rules are not armed")} for p in props if p not in claims],
}
json.dump(m, open(os.path.join(V, "MANIFEST.json"), "w"), indent=1)
print("claimed:", [c["property_id"] for c in checks])
