#!/usr/bin/env python3
"""seedmeta.py ID PROPERTY 'needs' 'caught_by' 'expect-regex or -'  — write seeded/ID/meta.json and, when an
expect regex is given, register the seed as a rule self-test under selftest/PROPERTY/."""
import json, sys, os, shutil
sid, prop, needs, caught, expect = sys.argv[1:6]
# optional 6th argument: the property whose check reports the seed (self-test placed there) when it differs
stprop = sys.argv[6] if len(sys.argv) > 6 else prop
d = f"/verif/seeded/{sid}"
v = open(f"{d}/.verify").read().split() if os.path.exists(f"{d}/.verify") else []
meta = {
    "id": sid, "property": prop,
    "what_it_needs_to_manifest": needs,
    "source": "fresh sub-agent given only the property text and a scratch worktree of /repo",
    "confirmed": {
        "how": "tools/verify_seed.sh in a scratch worktree of /repo HEAD (removed afterwards)",
        "demo_without_change_exit": int(v[0]) if v else None,
        "build_with_change_exit": int(v[1]) if v else None,
        "demo_with_change_exit": int(v[2]) if v else None,
        "pinned_suite_with_change": " ".join(v[3:]) if v else None,
    },
    "detected_by": caught,
    "selftest_expect": None if expect == "-" else expect,
}
json.dump(meta, open(f"{d}/meta.json", "w"), indent=1)
if expect != "-":
    os.makedirs(f"/verif/selftest/{stprop}", exist_ok=True)
    shutil.copy(f"{d}/patch.diff", f"/verif/selftest/{stprop}/seed-{sid}.patch")
    open(f"/verif/selftest/{stprop}/seed-{sid}.expect", "w").write(expect + "\n")
print("ok", sid)
